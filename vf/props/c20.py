"""C20 - the server loads configurations only from its root; threads keep the exact history.

Domain : the real FastAPI app `nemoguardrails.server.api.app` driven through `TestClient`, configured with a temp
         tree  BASE/root/{cfgA,cfgB}  (+ sibling BASE/root-evil and BASE/outside/secret, all valid configs) and a
         second tree  BASE/solo/cfgA  (a root that IS a configuration: single-config mode) with the valid configs
         BASE/solo/{cfgB,root-evil,cfgA-evil,outside/secret} next to it; every case starts the server on one of the
         two roots (module defaults + the app's own startup handlers, which pick the mode);
         `api.LLMRails` is a stub that records the messages it is asked to continue and answers with a digest of
         them; `RailsConfig.from_path` is wrapped (call-through) to record every path, and an audit hook records
         every open/listdir/scandir below BASE that is not below the root of the case.
         part "ids"     : 1-4 requests whose config_id / config_ids come from a grammar over dot sequences,
                          separators, percent-encodings, unicode look-alikes, absolute paths, valid names;
         part "threads" : 3-24 requests over 3 thread ids (prefixes of each other, case variants, 255 chars) with
                          1-3 new messages each, interleaved with requests without a thread id, then one probe
                          request per thread.
Oracle : ids - every path handed to from_path resolves (realpath) to the root or below it and nothing outside is
         touched; a request whose ids are all names of configuration directories of the root loads exactly
         root/<id> (or nothing if that list is already cached) and is answered by the rails; on a single-config
         root only the root's folder name is such an id and it loads the root itself; every other
         request gets the fixed "Could not load the [...] guardrails configuration. An internal error has
         occurred." reply and no rails run.  threads - reference model dict[thread_id] -> list: the stub must
         receive model[tid] + new messages, the reply is stored behind them, the set of stored threads equals the
         model after every step (so other threads are unchanged).
"""
import atexit
import hashlib
import json
import os
import shutil
import sys
import tempfile

from hypothesis import strategies as st

from vf.core import Violation, ok

PID = "C20"
LEVEL = "exploration"
CASE_TIMEOUT = 30
HANG_IS_VIOLATION = False
RULE = (
    "part ids (10 of 11 cases): server mode drawn per case - 2/3 multi-config root (BASE/root holding cfgA, cfgB; siblings root-evil, "
    "outside/secret) and 1/3 single-config root (BASE/solo/cfgA holds a config.yml itself, valid configurations cfgB, root-evil, "
    "cfgA-evil, outside/secret lie next to it; the server is started on it through its own startup handlers, so only the id 'cfgA' "
    "= the root's folder name is served); then 1-4 requests, each with config_id or config_ids (1-3 ids); on a single-config root "
    "15% of the ids are the plain name of a folder next to the root or the root's own name; otherwise an id is a curated escape attempt "
    "(../root-evil, ../outside/secret, absolute paths of the sibling/outside/inside configs, cfgA/../cfgB, backslash and "
    "percent-encoded and unicode look-alike variants, ...), a concatenation of 1-6 tokens from {.., ., ..., /, \\, //, %2e, %2f, "
    "%5c, fullwidth/one-dot-leader/division-slash look-alikes, cfgA, cfgB, root-evil, outside, secret, {BASE}, {ROOT}, {PARENT} = parent of the root, -, "
    "space, ~, '' ...} or a valid name; part threads (1 of 11): 3-24 operations over 3 thread ids drawn from a pool with shared "
    "16-character prefixes/case variants/255 characters, each with 1-3 messages (roles, small content alphabet so different "
    "threads hold equal messages, optional extra keys), ~10% without thread id, a quarter of the plain thread turns overlap with a complete turn on another thread id (served as its own task while the first is being generated), ~8% with context, configs cfgA/cfgB/[cfgA,cfgB], "
    "followed by a probe request per thread. Enumerated: every curated id alone / after a valid load / inside lists on the "
    "multi-config root, and every curated id, sibling folder name, '' and '.' alone (config_id and one-element list) and around loads "
    "of the root's own id on the single-config root. Non-trivial: ids case = some id contains a separator, a dot sequence, a "
    "percent-encoding or a look-alike, or (single-config root) is the name of a folder next to the root; threads case = at least 3 thread requests and at least 2 thread ids interleaved "
    "(a thread is used again after another one was used); distinct by case hash."
)
ASSUMPTIONS = [
    "the multi-config root contains exactly the configuration directories cfgA and cfgB (no symlinks, no files, no nested configs); "
    "the single-config root contains only its config.yml (no sub-folders); roots are given without trailing separator (as the CLI does)",
    "single-config root: the id that is served is the folder name of the root (what GET /v1/rails/configs lists; docs: 'only that "
    "configuration will be available'); a list repeating that id (['cfgA','cfgA']) is not specified: only confinement is asserted",
    "the server mode is established by running the app's registered startup handlers on attributes reset to the module defaults "
    "(the copies of the '/' route they register are dropped again); the threads part always runs on the multi-config root",
    "ids are NUL-free strings; requests never set config_id and config_ids together (HTTP 422 by schema)",
    "no id / empty id / [] (server answers HTTP 500 without default config) and lists containing '' or '.' (resolve to the root "
    "itself, which single-config mode loads on purpose): only confinement is asserted, in both server modes (DESIGN 4/C20 S)",
    "requests with `context` on a thread: only 'stored = received + reply' is asserted (DESIGN 4/C20 S)",
    "excluded unless case.strict: (a) an id equal to the '-'-join of a list served earlier (cache key collision), "
    "(b) ids ending in .yml/.yaml (from_path opens them as files; a missing file surfaces as HTTP 500); confinement is still asserted",
    "loads are observed at RailsConfig.from_path plus open/listdir/scandir audit events; the in-memory datastore is used",
]
WALL = {"quick": 150, "thorough": 1500}
VALID = ("cfgA", "cfgB")
SOLO_ID = "cfgA"  # folder name of the single-config root = the only id that server serves
SOLO_SIBLINGS = ("cfgB", "root-evil", "cfgA-evil", "outside")  # folders next to the single-config root ("outside" holds outside/secret)
FIXED_HEAD = "Could not load the "
FIXED_TAIL = " guardrails configuration. An internal error has occurred."
HI = [{"role": "user", "content": "hi"}]


def budget(tier):
    return 6600 if tier == "quick" else 132000


# ---------------------------------------------------------------------------------------------
# process-wide environment (temp tree, stub, wrappers); built lazily so that --replay works too

_E = None


class _Env:
    pass


def _mk_config(path, mark):
    os.makedirs(path)
    with open(os.path.join(path, "config.yml"), "w") as f:
        f.write(f"models: []\ninstructions:\n  - type: general\n    content: MARK-{mark}\n")


def _close_client(client):
    try:
        client.__exit__(None, None, None)
    except Exception:
        pass


def _digest(messages):
    return hashlib.sha1(json.dumps(messages, sort_keys=True, ensure_ascii=True).encode()).hexdigest()[:12]


def _reply_for(messages):
    return {"role": "assistant", "content": "R:" + _digest(messages)}


def _env():
    global _E
    if _E is not None:
        return _E
    from fastapi.testclient import TestClient

    import nemoguardrails  # noqa: F401
    from nemoguardrails.server import api

    e = _Env()
    e.api = api
    e.base = os.path.realpath(tempfile.mkdtemp(prefix="vf-c20-"))
    atexit.register(shutil.rmtree, e.base, True)
    e.root = os.path.join(e.base, "root")
    for name in VALID:
        _mk_config(os.path.join(e.root, name), name)
    _mk_config(os.path.join(e.base, "root-evil"), "EVIL")
    _mk_config(os.path.join(e.base, "outside", "secret"), "SECRET")
    # second tree for the single-config server mode: the root BASE/solo/cfgA is itself a configuration (it holds a
    # config.yml) and every other folder of BASE/solo is a valid configuration NEXT TO the root
    e.solo = os.path.join(e.base, "solo")
    _mk_config(os.path.join(e.solo, SOLO_ID), "SOLO")
    for name in SOLO_SIBLINGS:
        _mk_config(os.path.join(e.solo, name, "secret") if name == "outside" else os.path.join(e.solo, name), "SOLO-" + name)
    e.roots = {"multi": e.root, "single": os.path.join(e.solo, SOLO_ID)}
    e.paths, e.calls, e.touched = [], [], []
    e.watch = False
    e.nested, e.nested_result = None, None

    class StubRails:
        def __init__(self, config=None, llm=None, verbose=False, **kwargs):
            self.config = config
            self.events_history_cache = {}

        async def generate_async(self, messages=None, **kwargs):
            snap = json.loads(json.dumps(messages))
            e.calls.append(snap)
            if e.nested is not None:
                # another request (other thread id) arrives and is served completely while this one is being generated;
                # it runs as its own task with an empty context, like a request accepted by the server meanwhile
                import asyncio
                import contextvars

                import httpx

                body, e.nested = e.nested, None

                async def inner():
                    async with httpx.AsyncClient(transport=httpx.ASGITransport(app=api.app), base_url="http://testserver") as c:
                        r = await c.post("/v1/chat/completions", json=body)
                        try:
                            return r.status_code, r.json()
                        except Exception:
                            return r.status_code, None

                e.nested_result = await asyncio.get_running_loop().create_task(inner(), context=contextvars.Context())
            if snap and isinstance(snap[-1], dict) and snap[-1].get("content") == BOOM:
                raise RuntimeError("scripted generation failure")
            return _reply_for(snap)

    api.LLMRails = StubRails
    orig = api.RailsConfig.from_path

    def from_path(config_path, *a, **kw):
        e.paths.append(config_path)
        return orig(config_path, *a, **kw)

    api.RailsConfig.from_path = staticmethod(from_path)
    def audit(event, args):
        if not e.watch or event not in ("open", "os.listdir", "os.scandir"):
            return
        p = args[0] if args else None
        if isinstance(p, bytes):
            p = os.fsdecode(p)
        if isinstance(p, str) and e.base in p:
            rp = os.path.realpath(p)
            # below BASE, not the root / below the root, and not one of the root's own ancestors
            if rp.startswith(e.base + os.sep) and not (rp == e.root or rp.startswith(e.root + os.sep)) and not e.root.startswith(rp + os.sep):
                e.touched.append(f"{event}:{p}")

    sys.addaudithook(audit)
    api.app.disable_chat_ui = True
    api.app.rails_config_path = e.root
    api.app.auto_reload = False
    e.client = TestClient(api.app, raise_server_exceptions=False)
    # one portal (server event loop) for the life of the process: makes a request ~3x cheaper than a portal per request;
    # entering it runs the app's startup handlers once, _reset runs them again for the root of every case
    e.client.__enter__()
    atexit.register(_close_client, e.client)
    e.n_routes = len(api.app.router.routes)
    _E = e
    return e


def setup_worker():
    _env()


def _imports():
    # the import takes seconds: do it when the module is loaded, not under the per-case watchdog
    import fastapi.testclient  # noqa: F401

    import nemoguardrails  # noqa: F401
    import nemoguardrails.server.api  # noqa: F401
    import nemoguardrails.server.datastore.memory_store  # noqa: F401


_imports()


def _reset(e, mode="multi"):
    """A freshly started server on the root of `mode`: module-level defaults, then the app's own startup handlers (they
    decide between multi-config and single-config mode by looking at the root), on the server's event loop."""
    import inspect

    from nemoguardrails.server.datastore.memory_store import MemoryStore

    api = e.api
    api.llm_rails_instances.clear()
    api.llm_rails_events_history_cache.clear()
    api.registered_loggers.clear()
    e.root = e.roots[mode]
    api.app.rails_config_path = e.root
    api.app.default_config_id = None
    api.app.single_config_mode = False
    api.app.single_config_id = None
    api.app.auto_reload = False
    api.app.disable_chat_ui = True
    for handler in list(api.app.router.on_startup):
        if inspect.iscoroutinefunction(handler):
            e.client.portal.call(handler)
        else:
            handler()
    # the startup handler registers its "/" route again on every run: drop the copies (harness hygiene only)
    del api.app.router.routes[e.n_routes:]
    e.store = MemoryStore()
    api.register_datastore(e.store)


def _post(e, body):
    del e.paths[:], e.calls[:], e.touched[:]
    e.watch = True
    try:
        r = e.client.post("/v1/chat/completions", json=body)
    finally:
        e.watch = False
    try:
        js = r.json()
    except Exception:
        js = None
    return r.status_code, js, list(e.paths), list(e.calls), list(e.touched)


# ---------------------------------------------------------------------------------------------
# generators

CURATED = [
    "..",
    "../root-evil",
    "../outside/secret",
    "../root/cfgA",
    "../../",
    "cfgA/../cfgB",
    "cfgA/../../outside/secret",
    "cfgA/../../root-evil",
    "cfgA/..",
    "cfgA/.",
    "cfgA/",
    "./cfgA",
    ".//cfgA",
    "/",
    "//",
    "/etc",
    "{BASE}/outside/secret",
    "{BASE}/root-evil",
    "{ROOT}-evil",
    "{ROOT}/cfgA",
    "{ROOT}/../outside/secret",
    "/{ROOT}/cfgA",
    "..\\root-evil",
    "..\\outside\\secret",
    "cfgA\\..\\cfgB",
    "..\\..\\",
    "\\",
    "....//outside/secret",
    "..../outside",
    "...",
    ".../cfgA",
    "%2e%2e/outside/secret",
    "%2e%2e%2foutside%2fsecret",
    "..%2foutside%2fsecret",
    "..%2froot-evil",
    "%2e%2e%5croot-evil",
    "%252e%252e%252froot-evil",
    "..%c0%afroot-evil",
    "․․/root-evil",
    "．．/outside/secret",
    "..／root-evil",
    "..∕root-evil",
    "..⁄outside⁄secret",
    "．．／root-evil",
    "cfgＡ",
    "cfgA ",
    " cfgA",
    "cfgA\t",
    "CFGA",
    "cfga",
    "cfgA-cfgB",
    "cfgA-cfgA",
    "cfgC",
    "root",
    "root-evil",
    "-evil",
    "~",
    "~/cfgA",
    "file://{ROOT}/cfgA",
    "cfgA;cfgB",
    "cfgA,cfgB",
    "cfgA\ncfgB",
    "*",
    "cfg?",
    "cfgA/config.yml",
    # names and paths that matter when the root itself is the configuration (siblings of the root, the root, its parent)
    "cfgA-evil",
    "outside",
    "secret",
    "../cfgB",
    "../cfgA",
    "../cfgA-evil",
    "../cfgA/",
    "{PARENT}",
    "{PARENT}/",
    "{PARENT}/cfgB",
    "{PARENT}/root-evil",
    "{PARENT}/cfgA-evil",
    "{ROOT}",
    "{ROOT}/",
    "{ROOT}/.",
    "{ROOT}/../cfgB",
]
TOKENS = (
    ["..", "..", "..", ".", "...", "/", "/", "/", "\\", "\\", "//", "%2e", "%2e%2e", "%2E", "%2f", "%2F", "%5c", "%252e", "%252f"]
    + ["․", "．", "／", "∕", "⁄", "⧸", "。"]
    + ["cfgA", "cfgA", "cfgB", "cfgC", "root", "root-evil", "outside", "secret", "config", "-evil"]
    + ["{BASE}", "{ROOT}", "{PARENT}", "-", " ", "~", "", "x", "é"]
)
YAML_TOKENS = [".yml", ".yaml", "config.yml"]


@st.composite
def _id(draw, mode="multi"):
    k = draw(st.integers(0, 19))
    if k < 2:
        return draw(st.sampled_from(VALID))
    if mode == "single" and k < 5:
        # the plain name of a folder next to the root (or the root's own name)
        return draw(st.sampled_from(SOLO_SIBLINGS + (SOLO_ID,)))
    if k < 8:
        return draw(st.sampled_from(CURATED))
    toks = draw(st.lists(st.sampled_from(TOKENS), min_size=1, max_size=6))
    if draw(st.integers(0, 24)) == 0:
        toks.append(draw(st.sampled_from(YAML_TOKENS)))
    return "".join(toks)


@st.composite
def _id_request(draw, mode="multi"):
    k = draw(st.integers(0, 19))
    if k == 0:
        return draw(st.sampled_from([{}, {"config_id": None}, {"config_id": ""}, {"config_ids": []}, {"config_ids": [""]}, {"config_id": "."}]))
    if k < 12:
        return {"config_id": draw(_id(mode))}
    n = draw(st.sampled_from([1, 2, 2, 3]))
    ids = []
    for _ in range(n):
        ids.append(draw(st.sampled_from(VALID)) if draw(st.booleans()) else draw(_id(mode)))
    return {"config_ids": ids}


TIDS = [
    "t" * 16,
    "t" * 17,
    "t" * 16 + "-x",
    "T" * 16,
    "thread-abcdefghij",
    "thread-abcdefghijk",
    "thread-abcdefghiJ",
    "0123456789abcdef",
    "0123456789abcdef0",
    "thread-thread-0123456789abcdef",
    "../../../../etc/passwd",
    "ｔhread-0123456789",
    "x" * 255,
    "x" * 254,
    "thread-0123456789 ",
]
CONTENT = ["hi", "hello", "", "a", "b", "ok", "what can you do?", "é你", 'q"uo\\te', "R:000000000000"]
ROLES = ["user", "user", "user", "assistant", "system", "tool"]


BOOM = "@@BOOM@@"  # a turn whose last new message has this content makes the (stubbed) generation raise


@st.composite
def _message(draw):
    m = {"role": draw(st.sampled_from(ROLES)), "content": draw(st.one_of(st.sampled_from(CONTENT), st.sampled_from(CONTENT), st.text(max_size=8)))}
    if m["content"] == BOOM:
        # Hypothesis harvests string constants of this module for st.text(): the failure marker is reserved for turns
        # that are scripted (and modelled) as failing
        m["content"] = "boom"
    if draw(st.integers(0, 7)) == 0:
        m[draw(st.sampled_from(["name", "n", "meta"]))] = draw(st.one_of(st.integers(-5, 5), st.sampled_from(["x", None, True]), st.just({"k": [1, "v"]})))
    return m


@st.composite
def _threads_case(draw):
    tids = draw(st.lists(st.sampled_from(TIDS), min_size=3, max_size=3, unique=True))
    ops = []
    for _ in range(draw(st.integers(3, 24))):
        k = draw(st.integers(0, 9))
        tid = None if k == 0 else draw(st.integers(0, 2))
        cfg = draw(st.sampled_from(["cfgA", "cfgA", "cfgB", ["cfgA", "cfgB"]]))
        msgs = draw(st.lists(_message(), min_size=1, max_size=3))
        ctx = draw(st.sampled_from([{"user_name": "v"}, {"a": 1, "b": [2]}])) if draw(st.integers(0, 11)) == 0 else None
        op = {"tid": tid, "cfg": cfg, "messages": msgs, "context": ctx}
        if tid is not None and ctx is None and draw(st.integers(0, 6)) == 0:
            op["messages"] = msgs + [{"role": "user", "content": BOOM}]
            op["fail"] = True
        if tid is not None and ctx is None and not op.get("fail") and draw(st.integers(0, 3)) == 0:
            # a turn on ANOTHER thread is served completely while this turn is being generated
            other = draw(st.sampled_from([t for t in range(3) if t != tid]))
            op["during"] = {"tid": other, "cfg": draw(st.sampled_from(["cfgA", "cfgB"])), "messages": draw(st.lists(_message(), min_size=1, max_size=2))}
        ops.append(op)
    return {"part": "threads", "tids": tids, "ops": ops}


@st.composite
def _case(draw):
    if draw(st.integers(0, 10)) == 0:
        return draw(_threads_case())
    # server mode: the root holds configuration folders (multi) or the root itself is the configuration (single)
    mode = "single" if draw(st.integers(0, 2)) == 0 else "multi"
    reqs = draw(st.lists(_id_request(mode), min_size=1, max_size=4))
    return {"part": "ids", "mode": mode, "requests": reqs, "strict": True}


def strategy(tier):
    return _case()


def enumerate_cases(tier):
    # every curated id alone, after a valid load, and inside a list behind a valid name
    for cid in CURATED:
        yield {"part": "ids", "requests": [{"config_id": cid}], "strict": True}
        yield {"part": "ids", "requests": [{"config_id": "cfgA"}, {"config_ids": ["cfgA", cid]}, {"config_ids": [cid, "cfgB"]}], "strict": True}
    yield {"part": "ids", "requests": [{"config_ids": ["cfgA", "cfgB"]}, {"config_ids": ["cfgB", "cfgA"]}, {"config_id": "cfgB"}, {"config_id": "cfgB"}], "strict": True}
    # single-config root: every curated id and every sibling folder name alone (config_id and one-element list), and
    # around loads of the root's own id
    for cid in CURATED + list(SOLO_SIBLINGS) + ["", "."]:
        yield {"part": "ids", "mode": "single", "requests": [{"config_id": cid}, {"config_ids": [cid]}], "strict": True}
        yield {"part": "ids", "mode": "single", "requests": [{"config_id": SOLO_ID}, {"config_id": cid}, {"config_ids": [SOLO_ID, cid]}, {"config_ids": [cid, SOLO_ID]}, {"config_ids": [SOLO_ID]}], "strict": True}
    # a fixed interleaving on ids sharing their first 16 characters
    m = lambda s: [{"role": "user", "content": s}]  # noqa: E731
    for tids in (["t" * 16, "t" * 17, "T" * 16], ["x" * 255, "x" * 254, "thread-abcdefghij"]):
        ops = [{"tid": i % 3, "cfg": "cfgA" if i % 2 else "cfgB", "messages": m("hi"), "context": None} for i in range(7)]
        yield {"part": "threads", "tids": tids, "ops": ops}
        ops2 = []
        for i in range(8):
            o = {"tid": i % 2, "cfg": "cfgA", "messages": m(f"m{i}"), "context": None}
            if i in (2, 5):
                o["messages"] = o["messages"] + [{"role": "user", "content": BOOM}]
                o["fail"] = True
            ops2.append(o)
        yield {"part": "threads", "tids": tids, "ops": ops2}


# ---------------------------------------------------------------------------------------------
# part 1


def _expand(e, s):
    return s.replace("{BASE}", e.base).replace("{ROOT}", e.root).replace("{PARENT}", os.path.dirname(e.root))


LOOKALIKES = "․．／∕⁄⧸。Ａ"


def _features(raw):
    f = []
    if "/" in raw or "\\" in raw:
        f.append("separator")
    if ".." in raw:
        f.append("dotdot")
    elif "." in raw:
        f.append("dot")
    if "%" in raw:
        f.append("percent-encoding")
    if any(c in raw for c in LOOKALIKES):
        f.append("unicode-lookalike")
    if raw.startswith(("/", "{BASE}", "{ROOT}", "{PARENT}")):
        f.append("absolute")
    return f


def _inside(e, path):
    rp = os.path.realpath(path)
    return rp == e.root or rp.startswith(e.root + os.sep)


def _check_confinement(e, what, paths, touched):
    for p in paths:
        if not isinstance(p, str) or not _inside(e, p):
            raise Violation("outside-root-load", f"{what}: RailsConfig.from_path was asked to load {p!r} (resolves to {os.path.realpath(p)!r}), root is {e.root!r}")
    if touched:
        raise Violation("outside-root-access", f"{what}: files outside the root were read: {touched[:3]}")


def _is_fixed_reply(status, js):
    if status != 200 or not isinstance(js, dict):
        return False
    msgs = js.get("messages")
    if not (isinstance(msgs, list) and len(msgs) == 1 and isinstance(msgs[0], dict)):
        return False
    c = msgs[0].get("content")
    return msgs[0].get("role") == "assistant" and isinstance(c, str) and c.startswith(FIXED_HEAD) and c.endswith(FIXED_TAIL)


def _ids_case(e, case):
    strict = bool(case.get("strict"))
    single = case.get("mode", "multi") == "single"
    own = os.path.basename(e.root)  # single-config mode: the name of the root folder is the one id that is served
    served = {}  # cache key -> id list, for every request that was answered by rails in this case
    labels, skips = [], []
    nt = False
    view = []
    for n, req in enumerate(case["requests"]):
        body = {"messages": [dict(m) for m in HI]}
        raw_ids = None
        if "config_id" in req:
            body["config_id"] = None if req["config_id"] is None else _expand(e, req["config_id"])
            raw_ids = [req["config_id"]] if req["config_id"] not in (None, "") else None
        elif "config_ids" in req:
            body["config_ids"] = [_expand(e, i) for i in req["config_ids"]]
            raw_ids = list(req["config_ids"]) or None
        ids = None if raw_ids is None else [_expand(e, i) for i in raw_ids]
        status, js, paths, calls, touched = _post(e, body)
        what = f"request #{n} {json.dumps(req, ensure_ascii=True)}" + (f" [single-config root {e.root!r}]" if single else "")
        _check_confinement(e, what, paths, touched)
        feats = {f for i in (raw_ids or []) for f in _features(i)}
        if single and any(i in SOLO_SIBLINGS for i in (raw_ids or [])):
            feats.add("name-of-folder-next-to-single-root")
        feats = sorted(feats)
        if feats:
            nt = True
        labels += ["id:" + f for f in feats] or ["id:plain"]
        if "config_ids" in req:
            labels.append("config_ids-list")
        answered = status == 200 and isinstance(js, dict) and len(calls) == 1 and js.get("messages") == [_reply_for(calls[0])]
        key = None if ids is None else "-".join(ids)
        if ids is None:
            outcome = "no-id(confinement only)"
        elif any(i in ("", ".") for i in ids):
            outcome = "root-itself(confinement only)"
        elif single and len(ids) > 1 and all(i == own for i in ids):
            outcome = "single-id-repeated(confinement only)"  # combining the one configuration with itself: not specified
        elif (ids == [own]) if single else all(i in VALID for i in ids):
            outcome = "accepted"
            expected = [e.root] if single else [os.path.join(e.root, i) for i in ids]
            got = [os.path.normpath(p) for p in paths]
            cached = served.get(key) == ids
            if not (got == expected or (cached and got == [])):
                raise Violation("wrong-config-loaded", f"{what}: loaded {paths!r}, expected {expected!r}" + (" or nothing (cached)" if cached else ""))
            if not answered or calls[0] != HI:
                raise Violation("accepted-not-served", f"{what}: valid ids but HTTP {status} {str(js)[:160]} (rails calls: {len(calls)})")
            if cached and got == []:
                labels.append("served-from-cache")
        else:
            outcome = "rejected"
            excluded = None
            if key in served and served[key] != ids:
                excluded = "cache-key-collision"
            elif any(i.endswith((".yml", ".yaml")) for i in ids):
                excluded = "yaml-suffix-id"
            if not _is_fixed_reply(status, js) or calls:
                if excluded and not strict:
                    skips.append(excluded)
                    outcome = "excluded:" + excluded
                else:
                    raise Violation(
                        excluded or "not-rejected",
                        f"{what}: ids {ids!r} do not name " + (f"the single configuration {own!r} of the root" if single else "configuration directories of the root") + ", expected the fixed "
                        f"'Could not load ...' reply, got HTTP {status} {str(js)[:200]} (rails ran: {len(calls)}, loaded: {paths!r})",
                    )
            elif paths:
                labels.append("rejected-after-from_path")
        if answered and key is not None:
            served.setdefault(key, ids)
        labels.append("outcome:" + outcome)
        view.append({"request": req, "status": status, "reply": (js or {}).get("messages", js) if isinstance(js, dict) else js, "loaded": [p.replace(e.base, "{BASE}") for p in paths]})
    labels.append("mode:single-config-root" if single else "mode:multi-config-root")
    res = ok(nt=nt, labels=sorted(set(labels)), view={"part": "ids", "mode": "single" if single else "multi", "steps": view[:4]}, counters={"id_requests": len(case["requests"])})
    if skips:
        res["skip"] = "excluded feature: " + skips[0]
    return res


# ---------------------------------------------------------------------------------------------
# part 2


def _stored(e):
    vals = []
    for k, v in e.store.data.items():
        vals.append(json.loads(v))
    return sorted(vals, key=lambda x: json.dumps(x, sort_keys=True))


def _model_values(model):
    return sorted([v for v in model.values() if v], key=lambda x: json.dumps(x, sort_keys=True))


def _threads_run(e, case):
    tids = case["tids"]
    model = {t: [] for t in tids}
    order = []
    n_thread_reqs = 0
    n_failed = 0
    n_overlaps = 0
    probes = [{"tid": i, "cfg": "cfgA", "messages": [{"role": "user", "content": f"probe-{i}"}], "context": None, "probe": True} for i in range(3)]
    for n, op in enumerate(list(case["ops"]) + probes):
        tid = None if op["tid"] is None else tids[op["tid"]]
        body = {"messages": json.loads(json.dumps(op["messages"]))}
        if isinstance(op["cfg"], list):
            body["config_ids"] = list(op["cfg"])
        else:
            body["config_id"] = op["cfg"]
        if tid is not None:
            body["thread_id"] = tid
        if op.get("context") is not None:
            body["context"] = op["context"]
        during = op.get("during")
        if during:
            e.nested = {"messages": json.loads(json.dumps(during["messages"])), "config_id": during["cfg"], "thread_id": tids[during["tid"]]}
            e.nested_result = None
        status, js, paths, calls, touched = _post(e, body)
        what = f"step #{n} thread={tid!r:.40} cfg={op['cfg']!r} new={op['messages']!r}" + (f" context={op['context']!r}" if op.get("context") else "")
        if during:
            tid2 = tids[during["tid"]]
            what += f" [while it was generated, a turn on thread {tid2!r:.40} with {during['messages']!r} was served]"
            if len(calls) != 2 or e.nested_result is None or e.nested_result[0] != 200:
                raise Violation("turn-failed", f"{what}: overlapped turn: rails calls {len(calls)}, inner result {str(e.nested_result)[:200]}")
            inner_received = calls.pop(1)
            exp2 = model[tid2] + during["messages"]
            if inner_received != exp2:
                raise Violation("wrong-history-used", f"{what}: the overlapped turn received {json.dumps(inner_received)[:300]} but its stored thread + new messages is {json.dumps(exp2)[:300]}")
            reply2 = _reply_for(inner_received)
            if not isinstance(e.nested_result[1], dict) or e.nested_result[1].get("messages") != [reply2]:
                raise Violation("wrong-reply", f"{what}: the overlapped turn answered {str(e.nested_result[1])[:200]}, its reply is {reply2!r}")
            model[tid2] = inner_received + [reply2]
            n_thread_reqs += 1
            n_overlaps += 1
        _check_confinement(e, what, paths, touched)
        if op.get("fail"):
            # generation failed: nothing is said about the reply or about what is stored for THIS thread, but the turn
            # must have been attempted with stored thread + new messages, other threads must be untouched, and the next
            # turn must again start from whatever the datastore now holds for this thread
            n_failed += 1
            if len(calls) == 1 and calls[0] != model[tid] + op["messages"]:
                raise Violation("wrong-history-used", f"{what} (failing turn): rails received {json.dumps(calls[0])[:300]} but stored thread + new messages is {json.dumps(model[tid] + op['messages'])[:300]}")
            model[tid] = json.loads(e.store.data.get("thread-" + tid, "[]"))
            got, exp = _stored(e), _model_values(model)
            if got != exp:
                raise Violation("wrong-thread-store", f"{what} (failing turn): another thread changed: datastore {json.dumps(got)[:300]} vs model {json.dumps(exp)[:300]}")
            continue
        if status != 200 or len(calls) != 1 or not isinstance(js, dict):
            raise Violation("turn-failed", f"{what}: HTTP {status} {str(js)[:200]}, rails calls {len(calls)}")
        received = calls[0]
        reply = _reply_for(received)
        if js.get("messages") != [reply]:
            raise Violation("wrong-reply", f"{what}: response {str(js)[:200]} is not the reply {reply!r} produced for this turn")
        if tid is None:
            pass  # nothing is said about requests without thread id, except that they must not touch a thread
        else:
            n_thread_reqs += 1
            order.append(op["tid"])
            if op.get("context") is None:
                expected = model[tid] + op["messages"]
                if received != expected:
                    raise Violation(
                        "wrong-history-used",
                        f"{what}: rails received {len(received)} messages {json.dumps(received)[:300]} but stored thread + new messages is "
                        f"{len(expected)} messages {json.dumps(expected)[:300]}",
                    )
            model[tid] = received + [reply]
        got, exp = _stored(e), _model_values(model)
        if got != exp:
            raise Violation(
                "wrong-thread-store",
                f"{what}: datastore holds {len(got)} thread(s) {json.dumps(got)[:400]} but the model says {len(exp)} thread(s) {json.dumps(exp)[:400]}",
            )
    # interleaved = some thread is used again after a different one
    inter = any(order[i] != order[i + 1] and order[i] in order[i + 2:] for i in range(len(order) - 2)) if len(order) >= 3 else False
    real = [o for o in case["ops"] if o["tid"] is not None]
    nt = len(real) >= 3 and len({o["tid"] for o in real}) >= 2 and inter
    labels = ["part:threads", "threads-used:%d" % len({o["tid"] for o in real})]
    if inter:
        labels.append("interleaved")
    if any(o["tid"] is None for o in case["ops"]):
        labels.append("no-thread-request")
    if any(o.get("context") for o in case["ops"]):
        labels.append("context-request")
    if n_failed:
        labels.append("failing-turn")
    if n_overlaps:
        labels.append("overlapping-turns-on-two-threads")
    if any(isinstance(o["cfg"], list) for o in case["ops"]):
        labels.append("config_ids-on-thread")
    pre = {t[:16] for t in tids}
    if len(pre) < 3:
        labels.append("tids-share-16-prefix")
    view = {
        "part": "threads",
        "tids": [t[:24] + ("..." if len(t) > 24 else "") for t in tids],
        "ops": [f"{o['tid']}:{o['cfg']}:{[m['content'] for m in o['messages']]}" for o in case["ops"][:10]],
        "final_lengths": {t[:24]: len(v) for t, v in model.items()},
    }
    return ok(nt=nt, labels=labels, view=view, counters={"thread_requests": n_thread_reqs + 0, "thread_steps": len(case["ops"]) + 3})


def prop(case):
    e = _env()
    if case["part"] == "ids":
        _reset(e, "single" if case.get("mode", "multi") == "single" else "multi")
        return _ids_case(e, case)
    _reset(e)
    return _threads_run(e, case)


def known(case, violation):
    # proposed ids for the two excluded features (effective only if listed open in known_findings.json)
    if violation.kind == "cache-key-collision":
        return "C20-F13"
    if violation.kind == "yaml-suffix-id":
        return "C20-F14"
    return None
