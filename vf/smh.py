"""State-machine harness for Colang 2.x (DESIGN 3.4): init a program, feed events, own the tie-breaks
and the clock, canonicalise outgoing events, structural invariants (C09)."""
import datetime as _dt
import re
from collections import Counter

_patched = {}


class Chooser:
    """Replacement for `statemachine.random`: tie-break outcomes come from the case."""

    def __init__(self):
        self.choices = []
        self.i = 0
        self.used = 0

    def reset(self, choices):
        self.choices = list(choices or [])
        self.i = 0
        self.used = 0

    def choice(self, seq):
        seq = list(seq)
        self.used += 1
        if not self.choices:
            return seq[0]
        c = self.choices[self.i % len(self.choices)]
        self.i += 1
        return seq[c % len(seq)]

    # anything else falls back to the real module
    def __getattr__(self, name):
        import random

        return getattr(random, name)


CHOOSER = Chooser()
BASE = _dt.datetime(2030, 1, 1, 12, 0, 0)


class Clock:
    virtual = 0.0


class FakeDateTime(_dt.datetime):
    @classmethod
    def now(cls, tz=None):
        d = BASE + _dt.timedelta(seconds=Clock.virtual)
        if tz is not None:
            d = d.replace(tzinfo=tz)
        return d


def install():
    """Patch module-level names of the imported package (idempotent)."""
    if _patched:
        return
    from nemoguardrails.colang.v2_x.runtime import flows, statemachine

    statemachine.random = CHOOSER
    statemachine.datetime = FakeDateTime
    flows.datetime = FakeDateTime
    _patched["done"] = True


def sm():
    from nemoguardrails.colang.v2_x.runtime import statemachine

    return statemachine


def parse(text):
    from nemoguardrails.colang import parse_colang_file

    return parse_colang_file(filename="", content=text, include_source_mapping=False, version="2.x")["flows"]


def init(text, start=True, extra_flows=None):
    """parse -> flow configs -> State -> initialize_state -> StartFlow main (as tests/utils._init_state)."""
    install()
    from nemoguardrails.colang.v2_x.runtime.flows import InternalEvent, State
    from nemoguardrails.colang.v2_x.runtime.statemachine import initialize_state, run_to_completion
    from nemoguardrails.colang.v2_x.runtime.runtime import create_flow_configs_from_flow_list

    flows = parse(text)
    if extra_flows:
        flows = list(extra_flows) + flows
    config = create_flow_configs_from_flow_list(flows)
    state = State(flow_states=[], flow_configs=config)
    initialize_state(state)
    if start:
        run_to_completion(state, InternalEvent(name="StartFlow", arguments={"flow_id": "main"}))
    return state


def feed(state, event):
    """Feeds one external event (dict); returns a copy of the outgoing events."""
    from nemoguardrails.colang.v2_x.runtime.statemachine import run_to_completion

    run_to_completion(state, event)
    return [dict(e) for e in state.outgoing_events]


def ev(name, **kw):
    d = {"type": name}
    d.update(kw)
    return d


_VOLATILE = {"uid", "event_created_at", "source_uid", "action_info_modality", "action_info_modality_policy"}


def canon(events, keep_action_uid=True):
    """Canonicalise outgoing events: drop timestamps/uids, rename action uids by first appearance."""
    names = {}
    out = []
    for e in events:
        d = {}
        for k, v in e.items():
            if k in _VOLATILE:
                continue
            if k == "action_uid":
                if keep_action_uid:
                    d[k] = names.setdefault(v, f"A{len(names)}")
                continue
            d[k] = v
        out.append(d)
    return out


def types(events):
    return [e["type"] for e in events]


def flow_status_by_id(state):
    out = {}
    for fs in state.flow_states.values():
        out.setdefault(fs.flow_id, []).append(fs.status.value)
    return out


# ------------------------------------------------------------------------------------------------
# Colang literal rendering


def lit(v):
    """Render a Python value as a Colang 2 literal expression."""
    if isinstance(v, dict) and "__regex__" in v:
        return "regex(%s)" % lit(v["__regex__"])
    if isinstance(v, dict) and "__set__" in v:
        items = v["__set__"]
        if not items:
            return "set()"
        return "{" + ", ".join(lit(x) for x in items) + "}"
    if v is None:
        return "None"
    if v is True:
        return "True"
    if v is False:
        return "False"
    if isinstance(v, (int, float)):
        return repr(v)
    if isinstance(v, str):
        return '"' + v.replace("\\", "\\\\").replace('"', '\\"').replace("\n", "\\n") + '"'
    if isinstance(v, list):
        return "[" + ", ".join(lit(x) for x in v) + "]"
    if isinstance(v, dict):
        return "{" + ", ".join(f"{lit(k)}: {lit(x)}" for k, x in v.items()) + "}"
    raise TypeError(v)


def to_py(v):
    """Case value -> the Python object an event payload carries ('__set__' -> set)."""
    if isinstance(v, dict) and "__set__" in v:
        return set(_freeze(to_py(x)) for x in v["__set__"])
    if isinstance(v, dict) and "__regex__" in v:
        return re.compile(v["__regex__"])
    if isinstance(v, list):
        return [to_py(x) for x in v]
    if isinstance(v, dict):
        return {k: to_py(x) for k, x in v.items()}
    return v


def _freeze(x):
    if isinstance(x, list):
        return tuple(_freeze(i) for i in x)
    if isinstance(x, set):
        return frozenset(x)
    return x
