#!/bin/bash
# usage: mut.sh <PID> <file> <python-expr old> <python-expr new> [extra check args]
cd /var/tmp/vf-mut && git checkout -q -- . && /venv/bin/python - "$2" "$3" "$4" <<'PY'
import sys
p,old,new=sys.argv[1:4]
s=open(p).read()
assert s.count(old)>=1, "pattern not found"
open(p,'w').write(s.replace(old,new,1))
PY
[ $? -ne 0 ] && exit 9
cd /verif && VERIF_REPO=/var/tmp/vf-mut timeout 900 ./check $1 ${5:---workers 8} 2>&1 | grep -E "VIOLATION|HARNESS|tier=" | cut -c1-300
cd /var/tmp/vf-mut && git checkout -q -- .
