"""C19 - embedding search returns each query's own embedding under caching and batching.

Domain : the real `BasicEmbeddingsIndex` with a deterministic fake embedding model (registered through
         the public provider registry) on a virtual-time asyncio loop (vf/vclock.py).  A case is pure data:
         batching on/off, max_batch_size, max_batch_hold, cache configuration (off / in_memory or filesystem
         store x md5 or hash keys), the items indexed with add_item/add_items/build, a list of concurrent
         requests (arrival offset, operation, texts - duplicates and empty strings included) and the latency
         of the i-th model call.
Oracle : the fake model is a pure function `vec(text)` (sha256 -> 16 floats).  Every request must complete
         (no deadlock, no spinning, no exception - the model never raises), vectors handed back by
         `_batch_get_embeddings` / `_get_embeddings` must equal `vec(text)` per text in input order, the
         stored item embeddings must equal `vec(item.text)`, and the public `search(text)` must rank an item
         with the identical text first.  After the last request nothing may be left pending on the loop.
"""
import asyncio
import hashlib
import os
import shutil
import tempfile

from hypothesis import strategies as st

from vf import vclock
from vf.core import Violation, ok

PID = "C19"
LEVEL = "exploration"
CASE_TIMEOUT = 5  # cases take milliseconds; a coroutine spinning without yielding can only be stopped by the watchdog
HANG_IS_VIOLATION = True  # "every concurrent request completes"
MAX_STEPS = 200_000  # event-loop iterations per case; the largest seen on the unchanged tree is < 3000
RULE = (
    "case = {use_batching, max_batch_size 1..12, max_batch_hold in {0,0.01,0.5}, cache in {off, in_memory|filesystem x "
    "md5|hash}, items (1-3 chunks for add_item/add_items, then build), 1-40 requests in 1-8 arrival groups (offsets from a "
    "grid with coincidences or arbitrary floats; ops: public search(text), _batch_get_embeddings(text), "
    "_get_embeddings(list with duplicates/empty strings/empty list; in a fifth of the cases one list of 17-129 texts)), latency of the i-th model call in {0..1s}}; texts from a "
    "12-element pool (incl. '', unicode) plus generated ones. Run on a virtual-time loop; the fake model records every batch "
    "(texts, virtual start/end). A small grid of bursts (n simultaneous requests around max_batch_size x latency orders) is "
    "enumerated. Non-trivial = at least two model calls in flight at the same time, or a request arrived while the batching "
    "queue was full, or (cache on) a duplicate text inside one model batch / one list request; distinct by case hash."
)
ASSUMPTIONS = [
    "the embedding model never raises and returns python floats (DESIGN S: a failing model is out of scope)",
    "items are added sequentially before the concurrent phase (concurrent add_items is not part of the statement)",
    "search() is only compared for query texts that are indexed (top result must carry the identical text); Annoy is exact at <= 15 items",
    "schedules are asyncio interleavings at the suspension points of the code (model call, hold timer, events); no OS threads",
    "each case uses a fresh index and a fresh filesystem cache directory (no cross-case cache state)",
]
ENGINE = "verif_fake_c19"
DIM = 16
POOL = ["", "a", "b", "ab", "ba", "a b", "A", " a", "hello there", "héllo", "你好", "a" * 40]
HOLDS = [0, 0.01, 0.5]
CACHES = [
    None,
    {"store": "in_memory", "key": "md5"},
    {"store": "in_memory", "key": "hash"},
    {"store": "filesystem", "key": "md5"},
    {"store": "filesystem", "key": "hash"},
]
LATENCIES = [0, 0, 0.001, 0.005, 0.01, 0.02, 0.1, 0.5, 1.0]
OFFSETS = [0, 0, 0, 0.001, 0.005, 0.01, 0.0101, 0.011, 0.02, 0.05, 0.1, 0.5, 0.501, 0.51, 1.0]
WALL = {"quick": 150, "thorough": 1500}


def budget(tier):
    return 12000 if tier == "quick" else 200000


# ---------------------------------------------------------------------------------------------
# the reference: what the model gives for a text


def vec(text):
    d = hashlib.sha256(text.encode("utf-8", "surrogatepass")).digest()
    return [((d[2 * i] << 8 | d[2 * i + 1]) - 32767.5) / 65536.0 for i in range(DIM)]


# ---------------------------------------------------------------------------------------------
# fake model (the instance is a singleton inside the repo's model cache; per-case state lives in _CTX)


class _Ctx:
    def __init__(self, latencies):
        self.latencies = latencies
        self.calls = []  # {"texts", "t0", "t1", "s0", "s1"}
        self.seq = 0
        self.active = 0
        self.max_active = 0

    def begin(self, documents):
        rec = {"texts": list(documents), "t0": asyncio.get_running_loop().time(), "t1": None, "s0": self.seq, "s1": None}
        self.seq += 1
        self.active += 1
        self.max_active = max(self.max_active, self.active)
        lat = self.latencies[len(self.calls) % len(self.latencies)]
        self.calls.append(rec)
        return rec, lat

    def end(self, rec):
        rec["t1"] = asyncio.get_running_loop().time()
        rec["s1"] = self.seq
        self.seq += 1
        self.active -= 1


_CTX = None
_registered = False


def _register():
    """Imports the package and registers the fake provider (at module import: the import takes seconds and must
    not run under the per-case watchdog)."""
    global _registered
    if _registered:
        return
    import nemoguardrails  # noqa: F401  (the package has to be imported before its embeddings sub-package)
    from nemoguardrails.embeddings.basic import BasicEmbeddingsIndex  # noqa: F401
    from nemoguardrails.embeddings.providers import register_embedding_provider
    from nemoguardrails.embeddings.providers.base import EmbeddingModel

    class FakeModel(EmbeddingModel):
        engine_name = ENGINE

        def __init__(self, embedding_model=None, **kwargs):
            self.model = embedding_model
            self.embedding_size = DIM

        async def encode_async(self, documents):
            rec, lat = _CTX.begin(documents)
            await asyncio.sleep(lat)
            _CTX.end(rec)
            return [vec(t) for t in rec["texts"]]

        def encode(self, documents):
            return [vec(t) for t in documents]

    register_embedding_provider(FakeModel, ENGINE)
    _registered = True


_register()


def setup_worker():
    _register()


# ---------------------------------------------------------------------------------------------
# generators


@st.composite
def _case(draw):
    use_batching = draw(st.sampled_from([True, True, True, False]))
    mbs = draw(st.sampled_from([1, 1, 2, 2, 3, 3, 4, 5, 6, 7, 8, 9, 10, 11, 12]))
    hold = draw(st.sampled_from(HOLDS))
    cache = draw(st.sampled_from([None] + CACHES))
    pool = POOL + draw(st.lists(st.text(max_size=5), max_size=3))
    # a case talks about few different texts so that duplicates and cache hits are frequent
    k = draw(st.integers(1, len(pool)))
    texts = draw(st.lists(st.sampled_from(pool), min_size=k, max_size=k))
    text = st.sampled_from(texts)
    items = draw(st.lists(st.lists(text, min_size=1, max_size=5), min_size=1, max_size=3))
    indexed = [t for chunk in items for t in chunk]
    qtext = st.one_of(st.sampled_from(indexed), st.sampled_from(indexed), text)
    if use_batching:
        op = st.sampled_from(["search"] * 5 + ["embed"] * 5 + ["list"] * 2)
    else:
        op = st.sampled_from(["search"] * 4 + ["embed"] * 2 + ["list"] * 5)
    requests = []
    for _ in range(draw(st.integers(1, 8))):
        at = draw(st.one_of(st.sampled_from(OFFSETS), st.sampled_from(OFFSETS), st.floats(0, 1.2).map(lambda x: round(x, 4))))
        burst = draw(st.sampled_from([1, 1, 2, 3, mbs, mbs + 1, 2 * mbs + 1, 14]))
        for _ in range(burst):
            o = draw(op)
            if o == "list":
                ts = draw(st.lists(text, min_size=0 if draw(st.integers(0, 9)) == 0 else 1, max_size=6))
            else:
                ts = [draw(qtext)]
            requests.append({"at": at, "op": o, "texts": ts})
    requests = requests[:40]
    if draw(st.integers(0, 4)) == 0:
        # one long list request (size-dependent paths: chunking, paging): many distinct texts with a few duplicates
        n = draw(st.sampled_from([17, 31, 32, 33, 40, 64, 65, 100, 129]))
        m = draw(st.sampled_from([n, n, n - 3, max(2, n // 2)]))
        requests.insert(draw(st.integers(0, len(requests))), {"at": draw(st.sampled_from(OFFSETS)), "op": "list", "texts": [f"long text {j % m}" for j in range(n)]})
    latencies = draw(st.lists(st.sampled_from(LATENCIES), min_size=1, max_size=6))
    return {
        "use_batching": use_batching,
        "max_batch_size": mbs,
        "max_batch_hold": hold,
        "cache": cache,
        "items": items,
        "requests": requests,
        "latencies": latencies,
    }


def strategy(tier):
    return _case()


def enumerate_cases(tier):
    # bursts of n simultaneous single-text requests around the batch size, for every cache configuration
    for mbs in (1, 2, 3):
        for hold in HOLDS:
            for cache in CACHES:
                for n in (1, mbs, mbs + 1, 2 * mbs + 1):
                    for lat in ([0], [0, 0.5, 0], [0, 0, 0.5], [0, 0.02, 0.01]):
                        texts = [POOL[i % 5] for i in range(n)]
                        for op in ("embed", "search"):
                            yield {
                                "use_batching": True,
                                "max_batch_size": mbs,
                                "max_batch_hold": hold,
                                "cache": cache,
                                "items": [POOL[:5]] if op == "search" else [POOL[:2]],
                                "requests": [{"at": 0, "op": op, "texts": [t]} for t in texts],
                                "latencies": lat,
                            }
    # list requests with duplicates through the cache decorator, some texts already cached by add_items
    for cache in CACHES:
        for ts in (["a", "a"], ["b", "a", "b"], ["", "zz", ""], ["zz", "a", "zz", "b", "a"], []):
            yield {
                "use_batching": False,
                "max_batch_size": 10,
                "max_batch_hold": 0.01,
                "cache": cache,
                "items": [["a", "b"], [""]],
                "requests": [{"at": 0, "op": "list", "texts": ts}, {"at": 0, "op": "list", "texts": list(reversed(ts))}],
                "latencies": [0, 0.01, 0],
            }


# ---------------------------------------------------------------------------------------------


def _own_frame(exc):
    tb = exc.__traceback__
    last = None
    while tb is not None:
        last = tb.tb_frame.f_code.co_filename
        tb = tb.tb_next
    return last is not None and os.path.abspath(last) == os.path.abspath(__file__)


async def _request(index, i, req, out, flags):
    await asyncio.sleep(req["at"])
    op, texts = req["op"], req["texts"]
    if index.use_batching and op != "list":
        q = getattr(index, "_req_queue", None)
        if q is not None and len(q) >= index.max_batch_size:
            flags["queue_full_arrivals"] += 1
    try:
        if op == "search":
            res = await index.search(texts[0])
            out[i] = ("search", [getattr(r, "text", r) for r in res])
        elif op == "embed" and index.use_batching:
            out[i] = ("vec", [await index._batch_get_embeddings(texts[0])])
        else:
            out[i] = ("vec", await index._get_embeddings(list(texts)))
    except Exception as e:  # the model never raises: an exception means the request did not complete
        if _own_frame(e):
            raise
        out[i] = ("raised", f"{type(e).__name__}: {e}")
    flags["done_at"][i] = asyncio.get_running_loop().time()


async def _main(index, case, out, flags):
    from nemoguardrails.embeddings.index import IndexItem

    for chunk in case["items"]:
        if len(chunk) == 1:
            await index.add_item(IndexItem(text=chunk[0], meta={"n": 0}))
        else:
            await index.add_items([IndexItem(text=t, meta={"n": j}) for j, t in enumerate(chunk)])
    await index.build()
    flags["setup_calls"] = len(_CTX.calls)
    flags["stage"] = "requests"
    tasks = [asyncio.ensure_future(_request(index, i, r, out, flags)) for i, r in enumerate(case["requests"])]
    await asyncio.gather(*tasks)
    flags["stage"] = "drain"
    # let cancelled helper tasks unwind and every timer the index may still own expire
    await asyncio.sleep(case["max_batch_hold"] + max(case["latencies"]) + 1.0)
    me = asyncio.current_task()
    flags["left"] = [repr(t.get_coro()) for t in asyncio.all_tasks() if t is not me and not t.done()]


def prop(case):
    global _CTX
    _register()
    from nemoguardrails.embeddings import providers
    from nemoguardrails.embeddings.basic import BasicEmbeddingsIndex

    tmp = None
    cache = case["cache"]
    if cache is None:
        cache_config = None
    else:
        store_config = {}
        if cache["store"] == "filesystem":
            tmp = tempfile.mkdtemp(prefix="vf-c19-")
            store_config = {"cache_dir": os.path.join(tmp, "emb")}
        cache_config = {"enabled": True, "key_generator": cache["key"], "store": cache["store"], "store_config": store_config}
    _CTX = _Ctx(case["latencies"])
    loop = vclock.VirtualLoop(max_steps=MAX_STEPS)
    asyncio.set_event_loop(loop)
    out, flags = {}, {"queue_full_arrivals": 0, "done_at": {}, "stage": "setup", "left": []}
    cfg = (
        f"batching={case['use_batching']} max_batch_size={case['max_batch_size']} hold={case['max_batch_hold']} "
        f"cache={cache and cache['store'] + '/' + cache['key']} latencies={case['latencies']}"
    )
    interrupted = True
    try:
        index = BasicEmbeddingsIndex(
            embedding_model="fake",
            embedding_engine=ENGINE,
            cache_config=cache_config,
            use_batching=case["use_batching"],
            max_batch_size=case["max_batch_size"],
            max_batch_hold=case["max_batch_hold"],
        )
        try:
            with loop.alarm_relay():
                loop.run_until_complete(_main(index, case, out, flags))
            interrupted = False
        except vclock.VirtualTimeError as e:
            interrupted = False
            if flags["stage"] == "setup":
                raise  # sequential add_items/build cannot deadlock unless the harness is wrong
            missing = [i for i in range(len(case["requests"])) if i not in out]
            kind = "deadlock" if isinstance(e, vclock.Deadlock) else "livelock"
            raise Violation(
                kind,
                f"{cfg}: requests {missing[:8]} of {len(case['requests'])} never completed "
                f"(first: {case['requests'][missing[0]] if missing else None}); {e}",
            )
        calls = _CTX.calls
        # items: stored embeddings belong to their items
        indexed = [t for chunk in case["items"] for t in chunk]
        stored = [list(map(float, e)) for e in index._embeddings]
        if stored != [vec(t) for t in indexed]:
            bad = [i for i, t in enumerate(indexed) if i >= len(stored) or stored[i] != vec(t)]
            raise Violation("item-embedding", f"{cfg}: items {indexed!r}: stored embedding of item(s) {bad} is not the model's vector")
        for i, req in enumerate(case["requests"]):
            kind, val = out[i]
            what = f"{cfg}: request #{i} {req['op']}({req['texts']!r}) at t+{req['at']}"
            if kind == "raised":
                raise Violation("request-raised", f"{what} did not complete: {val}")
            if kind == "vec":
                exp = [vec(t) for t in req["texts"]]
                got = val
                if not isinstance(got, list) or len(got) != len(exp):
                    raise Violation("wrong-count", f"{what}: {len(exp)} texts but {len(got) if isinstance(got, list) else got!r} results")
                for j, (g, e) in enumerate(zip(got, exp)):
                    if g is None or list(g) != e:
                        owner = [t for t in sorted(set(indexed + [x for r in case["requests"] for x in r["texts"]])) if g is not None and list(g) == vec(t)]
                        raise Violation(
                            "wrong-embedding",
                            f"{what}: result {j} for text {req['texts'][j]!r} is "
                            + (f"the embedding of {owner[0]!r}" if owner else f"{g!r:.80}")
                            + "; model batches: "
                            + repr([c["texts"] for c in calls[flags["setup_calls"]:]])[:300],
                        )
            else:
                q = req["texts"][0]
                if q in indexed:
                    if not val or val[0] != q:
                        raise Violation("search-rank", f"{what}: items {indexed!r}; top results {val[:3]!r}, expected {q!r} first")
        if flags["left"]:
            raise Violation("pending-task", f"{cfg}: after all requests completed and timers expired still pending: {flags['left'][:3]}")
    except Exception:
        interrupted = False
        raise
    finally:
        # after the watchdog (a BaseException) cancelled tasks must not be run: a task spinning without
        # yielding would hang the clean-up
        loop.shutdown(run_cancelled=not interrupted)
        asyncio.set_event_loop(None)
        providers._embedding_model_cache.pop(f"{ENGINE}-fake", None)
        if tmp:
            shutil.rmtree(tmp, ignore_errors=True)

    req_calls = calls[flags["setup_calls"]:]
    inflight = 0
    events = sorted([(c["s0"], 1) for c in req_calls] + [(c["s1"], -1) for c in req_calls])
    cur = 0
    for _, d in events:
        cur += d
        inflight = max(inflight, cur)
    dup_batch = bool(cache) and (
        any(len(set(c["texts"])) < len(c["texts"]) for c in calls)
        or any(r["op"] == "list" and len(set(r["texts"])) < len(r["texts"]) for r in case["requests"])
    )
    qfull = flags["queue_full_arrivals"] > 0
    nt = inflight >= 2 or qfull or dup_batch
    n = len(case["requests"])
    labels = [
        "batching" if case["use_batching"] else "no-batching",
        "cache:" + (cache["store"] + "/" + cache["key"] if cache else "off"),
        "requests:" + ("1" if n == 1 else "2-5" if n <= 5 else "6-15" if n <= 15 else "16-40"),
        "model-calls:" + ("0" if not req_calls else "1" if len(req_calls) == 1 else "2-4" if len(req_calls) <= 4 else "5+"),
    ]
    if inflight >= 2:
        labels.append("inflight>=2")
    if inflight >= 3:
        labels.append("inflight>=3")
    if qfull:
        labels.append("queue-full-arrival")
    if dup_batch:
        labels.append("dup-in-batch+cache")
    if any(r["op"] == "search" for r in case["requests"]):
        labels.append("op:search")
    if any("" in r["texts"] for r in case["requests"]):
        labels.append("empty-string")
    # batches completing in a different order than they were submitted
    ends = [c["s1"] for c in req_calls]
    if ends != sorted(ends):
        labels.append("out-of-order-completion")
    if any(len(r["texts"]) > 16 for r in case["requests"]):
        labels.append("long-list-request")
    view = {
        "config": cfg,
        "items": case["items"],
        "requests": [f"t+{r['at']} {r['op']} {r['texts']!r}" for r in case["requests"][:12]],
        "model_batches": [{"texts": c["texts"], "t0": c["t0"], "t1": c["t1"]} for c in req_calls[:10]],
        "max_in_flight": inflight,
        "queue_full_arrivals": flags["queue_full_arrivals"],
        "loop_iterations": loop.steps,
    }
    return ok(nt=nt, labels=labels, view=view, counters={"model_calls": len(calls), "requests": n, "loop_iterations": loop.steps})
