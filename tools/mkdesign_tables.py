#!/usr/bin/env python3
"""Regenerates the findings table (section 10) and the seeded-changes table (section 11) of DESIGN.md from
known_findings.json and seeded/*/meta.json (the text between the BEGIN/END markers is replaced)."""
import glob
import json
import os

HERE = os.path.dirname(os.path.dirname(os.path.abspath(__file__)))


def block(text, name, body):
    b, e = f"<!-- BEGIN {name} -->", f"<!-- END {name} -->"
    i, j = text.index(b) + len(b), text.index(e)
    return text[:i] + "\n" + body + "\n" + text[j:]


def main():
    fs = json.load(open(os.path.join(HERE, "known_findings.json")))["findings"]
    rows = ["| finding | property | status | what failed | fix commit / disposition |", "|---|---|---|---|---|"]
    for f in fs:
        disp = f.get("commit", "") if f["status"] == "fixed" else "OPEN - listed in known_findings.json; excluded by construction / classified by `known()`"
        rows.append(f"| {f['id']} | {f['property']} | {f['status']} | {f['what'][:330].replace('|', '/')} | {disp} |")
    findings = "\n".join(rows)
    rows = ["| seed | needs in order to manifest | first version | how it is caught now |", "|---|---|---|---|"]
    for d in sorted(glob.glob(os.path.join(HERE, "seeded", "*", "meta.json"))):
        m = json.load(open(d))
        n = os.path.basename(os.path.dirname(d))
        first = "missed, then caught" if m["check_result"].startswith("MISSED") else ("pending" if m["check_result"] == "pending" else "caught")
        if m.get("status") == "neutralised":
            first += "; neutralised by a later fix"
        rows.append(f"| {n} | {m['needs_to_manifest'][:170].replace('|', '/')} | {first} | {m['check_result'][:300].replace('|', '/')} |")
    seeds = "\n".join(rows)
    # per-property summary of the first exposure
    per = {}
    for d in sorted(glob.glob(os.path.join(HERE, "seeded", "*", "meta.json"))):
        m = json.load(open(d))
        pid = os.path.basename(os.path.dirname(d)).split("-")[0]
        t = per.setdefault(pid, [0, 0, 0])
        t[0] += 1
        t[1] += 0 if m["check_result"].startswith("MISSED") else 1
        t[2] += 1 if m.get("status") == "neutralised" else 0
    srows = ["| property | seeded changes | caught on first exposure | missed at first, caught after a widening | neutralised by a later fix |", "|---|---|---|---|---|"]
    for pid in sorted(per):
        a, b, c = per[pid]
        srows.append(f"| {pid} | {a} | {b} | {a - b} | {c} |")
    a, b, c = (sum(v[i] for v in per.values()) for i in range(3))
    srows.append(f"| all | {a} | {b} | {a - b} | {c} |")
    seedsum = "\n".join(srows)
    p = os.path.join(HERE, "DESIGN.md")
    s = open(p).read()
    s = block(s, "FINDINGS", findings)
    s = block(s, "SEEDS", seeds)
    if "<!-- BEGIN SEEDSUM -->" in s:
        s = block(s, "SEEDSUM", seedsum)
    open(p, "w").write(s)
    n_open = sum(1 for f in fs if f["status"] == "open")
    print(f"{len(fs)} findings ({n_open} open), {len(rows) - 2} seeds")


if __name__ == "__main__":
    main()
